package main

import (
	"fmt"
	"go/token"
	"go/types"
	"strings"

	"golang.org/x/tools/go/ssa"
)

// C12: Charging API contract: 201+Location / 200 / 204; rejections have no effect.

const (
	procPath   = modPath + "/internal/sbi/processor"
	ctxPath    = modPath + "/internal/context"
	modelsPath = "github.com/free5gc/openapi/models"
)

func init() { register("C12", "other", checkC12) }

// effect machinery shared with other properties -----------------------------

type effects struct {
	c       *Ctx
	base    map[*ssa.Function]bool
	effFn   map[*ssa.Function]bool // transitively effectful module functions
	ueCells map[string]bool
}

var ueAccountingCells = map[string]bool{
	"ReservedQuota": true, "RatingType": true, "UnitCost": true, "AcctRequestNum": true,
	"Cdr": true, "Records": true, "RatingGroups": true, "NotifyUri": true,
}

func newEffects(c *Ctx) *effects {
	e := &effects{c: c, base: map[*ssa.Function]bool{}, effFn: map[*ssa.Function]bool{}, ueCells: ueAccountingCells}
	for _, a := range [][2]string{
		{"internal/abmf", "SendAccountDebitRequest"},
		{"internal/rating", "SendServiceUsageRequest"},
		{"internal/sbi/processor", "Processor.UpdateCDR"},
		{"internal/sbi/processor", "Processor.CloseCDR"},
		{"internal/sbi/processor", "Processor.OpenCDR"},
		{"internal/sbi/processor", "Processor.SendChargingNotification"},
		{"internal/sbi/processor", "dumpCdrFile"},
		{"internal/cgf", "SendCDR"},
		{"cdr/cdrFile", "CDRFile.Encoding"},
	} {
		e.base[c.fn(a[0], a[1])] = true
	}
	// closure under callers
	for f := range e.base {
		e.effFn[f] = true
	}
	// functions with a direct write to a subscriber accounting cell are effectful too
	for _, f := range c.ModFuncs {
		if f.Name() == "init" && f.Signature.Recv() != nil {
			continue // constructor of the subscriber context
		}
		if len(e.directEffects(f)) > 0 {
			e.effFn[f] = true
		}
	}
	changed := true
	for changed {
		changed = false
		for _, f := range c.ModFuncs {
			if e.effFn[f] {
				continue
			}
			for _, callee := range c.callgraph().out[f] {
				if e.effFn[callee] {
					e.effFn[f] = true
					changed = true
					break
				}
			}
		}
	}
	return e
}

// directEffects: stores to accounting cells of ChfUe in f itself.
func (e *effects) directEffects(f *ssa.Function) []ssa.Instruction {
	var out []ssa.Instruction
	eachInstr(f, func(_ *ssa.BasicBlock, _ int, ins ssa.Instruction) {
		switch x := ins.(type) {
		case *ssa.MapUpdate:
			if name, ok := ueFieldOfValue(x.Map); ok && e.ueCells[name] {
				out = append(out, ins)
			}
		case *ssa.Store:
			if fa, ok := x.Addr.(*ssa.FieldAddr); ok && typeIs(fa.X.Type(), ctxPath, "ChfUe") && e.ueCells[fieldName(fa)] {
				out = append(out, ins)
			}
			// element store into a slice/array loaded from a cell
			if ia, ok := x.Addr.(*ssa.IndexAddr); ok {
				if name, ok := ueFieldOfValue(ia.X); ok && e.ueCells[name] {
					out = append(out, ins)
				}
			}
		}
	})
	return out
}

// ueFieldOfValue: v is a load of field F of a ChfUe.
func ueFieldOfValue(v ssa.Value) (string, bool) {
	ld, ok := v.(*ssa.UnOp)
	if !ok || ld.Op != token.MUL {
		return "", false
	}
	fa, ok := ld.X.(*ssa.FieldAddr)
	if !ok || !typeIs(fa.X.Type(), ctxPath, "ChfUe") {
		return "", false
	}
	return fieldName(fa), true
}

// effectInstrs lists the instructions of f that have an effect: direct cell
// writes and calls (incl. defer/go) that may reach an effectful function.
func (e *effects) effectInstrs(f *ssa.Function) []ssa.Instruction {
	out := e.directEffects(f)
	eachInstr(f, func(_ *ssa.BasicBlock, _ int, ins ssa.Instruction) {
		ci, ok := ins.(ssa.CallInstruction)
		if !ok {
			return
		}
		for _, callee := range e.c.calleesAt(ci) {
			if e.effFn[callee] {
				out = append(out, ins)
				return
			}
		}
	})
	return out
}

// ---------------------------------------------------------------------------

type responder struct {
	ins    ssa.Instruction
	method string
	status ssa.Value
	body   ssa.Value
}

// respondersOf lists the gin response calls on context value cv in f.
func respondersOf(f *ssa.Function, cv ssa.Value) []responder {
	var out []responder
	eachInstr(f, func(_ *ssa.BasicBlock, _ int, ins ssa.Instruction) {
		call, ok := ins.(*ssa.Call)
		if !ok {
			return
		}
		obj := calleeObj(&call.Call)
		if obj == nil || obj.Pkg() == nil || obj.Pkg().Path() != ginPath {
			return
		}
		args := append([]ssa.Value{}, call.Call.Args...)
		if len(args) < 2 || resolveMem(args[0]) != cv {
			return
		}
		// the context, the status and the body may be kept in a local reply object
		for i := range args {
			args[i] = resolveMem(args[i])
		}
		switch obj.Name() {
		case "JSON", "IndentedJSON", "PureJSON", "XML", "YAML", "AbortWithStatusJSON", "SecureJSON", "AsciiJSON", "ProtoBuf":
			r := responder{ins: ins, method: obj.Name(), status: args[1]}
			if len(args) >= 3 {
				r.body = args[2]
			}
			out = append(out, r)
		case "String", "Data", "Render", "HTML":
			out = append(out, responder{ins: ins, method: obj.Name(), status: args[1], body: args[len(args)-1]})
		case "Status", "AbortWithStatus":
			out = append(out, responder{ins: ins, method: obj.Name(), status: args[1]})
		}
	})
	return out
}

func ginContextParam(f *ssa.Function) *ssa.Parameter {
	for _, p := range f.Params {
		if typeIs(p.Type(), ginPath, "Context") {
			return p
		}
	}
	return nil
}

func checkC12(c *Ctx, r *Report) {
	r.Explanation = "Decides the structural clauses of the API contract on go/ssa: (R1) the status constants and Location header on the success edge of the three handlers and that the Location URI ends with the very value used as the session-map key; (R2) echo of the invocation sequence number and a timestamp on every success return; (R3) validate-before-effect: in update and release a branch that depends on a look-up of subscriber state keyed by the session reference (and one on the subscriber look-up) has an 'absent' edge that returns a 4xx problem without reaching any effect (account debit/refund, reservation or record change, file dump, CDR transfer) and a 'present' edge that dominates every effect; (R4) recharge: exactly one notification, to the registered URI, naming the path's rating group, and 204; (R5) every problem status built by the processor is a 4xx constant."
	r.Undecided = []string{"content of the JSON bodies beyond the echoed members", "behaviour of gin's writers", "a 4xx for a recharge naming an unknown subscriber is not demanded by the statement"}
	r.Trusted = append(r.Trusted, "gin response writers (JSON/Status/Header) send the status they are given")
	r.rule("C12.R1", "success edge of the handlers answers 201+Location / 200 / 204-without-body; Location ends with the session-map key", 4)
	r.rule("C12.R2", "response echoes the request's invocation sequence number and carries a timestamp on every success return", 4)
	r.rule("C12.R3", "validate before effect: absent subscriber / absent session edge returns 4xx without reaching an effect; present edge dominates all effects", 4)
	r.rule("C12.R4", "recharge: one notification to ue.NotifyUri naming the rating group on the found edge, none otherwise; RechargePut answers 204", 4)
	r.rule("C12.R5", "every ProblemDetails status built in the processor is a 4xx constant", 8)
	r.rule("C12.R8", "the subscriber a request is processed for is the one the request names: no code of the module assigns the request's subscriberIdentifier (a look-up that falls back to another subscriber answers 200/204 for a request naming an unknown one)", 1)
	r.rule("C12.R9", "the rating group named in the recharge path is parsed in the width of the rating-group type (a narrower parse answers 400 for a legal rating group)", 1)
	r.rule("C12.R10", "a rejected request leaves the subscriber usable: every lock taken by a request is released on all its exits, the 4xx ones included (shared with C11.R4) - otherwise the valid requests that follow are never answered", 4)
	r.rule("C12.R11", "a valid update or release is not refused by the file writer: its size guard refuses exactly what the 16-bit record length cannot hold (shared with C03.R1)", 2)
	r.rule("C12.R13", "the recharge parameter can be taken apart for every subscriber id the CHF admits (the IMSI format only, or a cut at the last separator)", 1)
	r.rule("C12.R14", "the recharge notification is sent with no lock held (shared with C09.R8): an update the consumer sends before answering it is answered 200 in time, and the recharge is answered 204", 1)
	r.rule("C12.R15", "a valid update of a long session keeps being answered 200: the record that continues a session starts with an empty usage list (shared with C02.R6) - one that keeps the length of the old list grows past the record limit and every later update and the release are refused", 2)
	r.rule("C12.R16", "the session a create answers 201 for stays reachable: contexts enter the pool atomically and the stored one is used (shared with C09.R4/R5) - otherwise a valid update on the returned Location is answered 404", 2)
	r.rule("C12.R7", "the notification URI registered at creation is not overwritten by update, release or recharge", 1)
	r.rule("C12.R6", "after credit control has run, a 4xx answer reports a failed operation and is never a check of the request content", 6)

	eff := newEffects(c)
	nEff := 0
	for f := range eff.effFn {
		_ = f
		nEff++
	}
	r.count("effectful_functions", nEff)

	// ---- R1 handlers
	type hspec struct {
		handler, proc string
		succIdx       int  // index of the result compared with nil
		succNonNil    bool // success when result != nil
		status        int64
		location      bool
		noBody        bool
	}
	for _, h := range []hspec{
		{"Processor.HandleChargingdataInitial", "Processor.ChargingDataCreate", 0, true, 201, true, false},
		{"Processor.HandleChargingdataUpdate", "Processor.ChargingDataUpdate", 0, true, 200, false, false},
		{"Processor.HandleChargingdataRelease", "Processor.ChargingDataRelease", 0, false, 204, false, true},
	} {
		f := c.fn("internal/sbi/processor", h.handler)
		proc := c.fn("internal/sbi/processor", h.proc)
		key := fnKey(f)
		cv := ginContextParam(f)
		if cv == nil {
			r.viol("C12.R1", key+"|ctx", c.rel(f.Pos()), "handler has no *gin.Context parameter")
			continue
		}
		var pcall *ssa.Call
		eachInstr(f, func(_ *ssa.BasicBlock, _ int, ins ssa.Instruction) {
			if call, ok := ins.(*ssa.Call); ok && call.Call.StaticCallee() == proc {
				pcall = call
			}
		})
		if pcall == nil {
			r.viol("C12.R1", key+"|call", c.rel(f.Pos()), "handler does not call "+h.proc)
			continue
		}
		results := map[int]ssa.Value{}
		if proc.Signature.Results().Len() == 1 {
			results[0] = pcall
		} else {
			for _, ref := range *pcall.Referrers() {
				if ex, ok := ref.(*ssa.Extract); ok {
					results[ex.Index] = ex
				}
			}
		}
		rv := results[h.succIdx]
		// find the If comparing rv with nil
		var succBlk, ifBlk *ssa.BasicBlock
		for _, b := range f.Blocks {
			if len(b.Instrs) == 0 {
				continue
			}
			ifi, ok := b.Instrs[len(b.Instrs)-1].(*ssa.If)
			if !ok {
				continue
			}
			bo, ok := ifi.Cond.(*ssa.BinOp)
			if !ok || (bo.Op != token.EQL && bo.Op != token.NEQ) {
				continue
			}
			if !((bo.X == rv && isNilConst(bo.Y)) || (bo.Y == rv && isNilConst(bo.X))) {
				continue
			}
			nonNilEdge := b.Succs[0]
			nilEdge := b.Succs[1]
			if bo.Op == token.EQL {
				nonNilEdge, nilEdge = nilEdge, nonNilEdge
			}
			ifBlk = b
			if h.succNonNil {
				succBlk = nonNilEdge
			} else {
				succBlk = nilEdge
			}
			break
		}
		if succBlk == nil || !edgeOnly(ifBlk, succBlk) {
			r.viol("C12.R1", key+"|success-edge", c.rel(f.Pos()), "no branch on the processor result found that separates the success edge")
			continue
		}
		resp := respondersOf(f, cv)
		var good []ssa.Instruction
		allGood := true
		detail := ""
		for _, rs := range resp {
			if !(rs.ins.Block() == succBlk || succBlk.Dominates(rs.ins.Block())) {
				continue
			}
			st, ok := constInt(rs.status)
			if !ok || st != h.status {
				allGood = false
				detail = fmt.Sprintf("answers %s on the success edge at %s, expected constant %d", describeStatus(rs.status), posOf(c, rs.ins), h.status)
				continue
			}
			if h.noBody && rs.method != "Status" && rs.method != "AbortWithStatus" {
				allGood = false
				detail = "success answer carries a body (" + rs.method + ")"
				continue
			}
			if !h.noBody {
				// body must be the processor's response
				if rs.body == nil || stripConv(rs.body) != results[0] {
					allGood = false
					detail = "success body is not the processor's response"
					continue
				}
			}
			good = append(good, rs.ins)
		}
		// a success status is the answer to this request's own operation: none is given off the
		// success edge (an answer replayed from a cache names a session that may be released since)
		for _, rs := range resp {
			if rs.ins.Block() == succBlk || succBlk.Dominates(rs.ins.Block()) {
				continue
			}
			if st, ok := constInt(rs.status); ok && st >= 200 && st < 300 {
				allGood = false
				detail = fmt.Sprintf("answers %s at %s without the success result of %s for this request: the answer (and its Location) is not that of an operation performed for this request - replayed from an earlier one it names a session that may have been released since, and no new session is opened", describeStatus(rs.status), posOf(c, rs.ins), h.proc)
			}
		}
		okPaths := len(good) > 0 && everyPathFromPasses(succBlk, good)
		if allGood && !okPaths {
			detail = fmt.Sprintf("a path on the success edge returns without answering %d", h.status)
		}
		r.check(allGood && okPaths, "C12.R1", key+"|status", posOf(c, pcall), fmt.Sprintf("every path of the success edge answers constant %d", h.status), detail)
		if h.location {
			okLoc := false
			why := "no c.Header(\"Location\", uri) with the URI returned by the processor dominates the 201 answer"
			eachInstr(f, func(_ *ssa.BasicBlock, _ int, ins ssa.Instruction) {
				if cc, ok := callIs(ins, ginPath, "Context.Header"); ok && len(cc.Args) == 3 && resolveMem(cc.Args[0]) == ssa.Value(cv) {
					if s, ok := constString(cc.Args[1]); ok && s == "Location" && resolveMem(cc.Args[2]) == results[1] {
						for _, g := range good {
							if instrDominates(ins, g) {
								okLoc = true
							}
						}
					}
				}
			})
			r.check(okLoc, "C12.R1", key+"|location", posOf(c, pcall), "Location header set from the processor's URI before the 201 answer", why)
		}
	}

	// Location URI ends with the session-map key
	create := c.fn("internal/sbi/processor", "Processor.ChargingDataCreate")
	{
		key := fnKey(create)
		var cdrKeys []ssa.Value
		eachInstr(create, func(_ *ssa.BasicBlock, _ int, ins ssa.Instruction) {
			if mu, ok := ins.(*ssa.MapUpdate); ok {
				if name, ok := ueFieldOfValue(mu.Map); ok && name == "Cdr" {
					cdrKeys = append(cdrKeys, mu.Key)
				}
			}
		})
		n := 0
		okAll := true
		why := ""
		for _, ri := range returnsOf(create) {
			if len(ri.Vals) < 2 || isNilConst(ri.Vals[0]) {
				continue
			}
			n++
			bo, ok := ri.Vals[1].(*ssa.BinOp)
			if !ok || bo.Op != token.ADD {
				okAll, why = false, "returned URI is not a concatenation ending in the session reference"
				continue
			}
			found := false
			for _, k := range cdrKeys {
				if bo.Y == k {
					found = true
				}
			}
			if !found {
				okAll, why = false, "the tail of the Location URI is not the value used as key of ue.Cdr"
			}
		}
		r.check(n > 0 && okAll && len(cdrKeys) > 0, "C12.R1", key+"|location-tail", c.rel(create.Pos()), "URI = prefix + the SSA value used as ue.Cdr key", why)
	}

	// ---- R2 echo + timestamp
	for _, name := range []string{"Processor.ChargingDataCreate", "Processor.ChargingDataUpdate"} {
		f := c.fn("internal/sbi/processor", name)
		key := fnKey(f)
		cd := paramByName(f, "chargingData")
		if cd == nil && len(f.Params) >= 2 {
			cd = f.Params[1]
		}
		for _, ri := range returnsOf(f) {
			if len(ri.Vals) == 0 || isNilConst(ri.Vals[0]) {
				continue
			}
			resp, ok := ri.Vals[0].(*ssa.Alloc)
			if !ok {
				r.viol("C12.R2", key+"|response", posOf(c, ri.Ret), "success return does not return a locally built response")
				continue
			}
			seqOK, tsOK := false, false
			for _, st := range storesToField(resp, "InvocationSequenceNumber") {
				if instrDominates(st, ri.Point()) && isParamFieldLoad(st.Val, cd, "InvocationSequenceNumber") {
					seqOK = true
				}
			}
			for _, st := range storesToField(resp, "InvocationTimeStamp") {
				if instrDominates(st, ri.Point()) && !isNilConst(st.Val) {
					tsOK = true
				}
			}
			r.check(seqOK, "C12.R2", key+"|seq", posOf(c, ri.Ret), "InvocationSequenceNumber <- request.InvocationSequenceNumber dominates the success return", "the response's InvocationSequenceNumber is not assigned from the request's on every success path")
			r.check(tsOK, "C12.R2", key+"|timestamp", posOf(c, ri.Ret), "InvocationTimeStamp assigned before the success return", "the response's InvocationTimeStamp is not assigned on every success path")
		}
	}

	// ---- R3 validate before effect
	for _, name := range []string{"Processor.ChargingDataUpdate", "Processor.ChargingDataRelease"} {
		f := c.fn("internal/sbi/processor", name)
		checkValidateBeforeEffect(c, r, eff, f, "C12.R3")
		checkNoRequestCheckAfterEffect(c, r, f, "C12.R6")
	}

	// ---- R4 recharge
	checkRecharge(c, r)
	checkRequestIdentity(c, r)
	r.shareFrom(c, checkC11, map[string]string{"C11.R4": "C12.R10"})
	checkParseWidths(c, r, "C12.R9", c.fn("internal/sbi", "Server.RechargePut"))
	r.shareFrom(c, checkC03, map[string]string{"C03.R1": "C12.R11"})
	r.shareFrom(c, checkC02, map[string]string{"C02.R6": "C12.R15"})
	r.shareFrom(c, checkC09, map[string]string{"C09.R4": "C12.R16", "C09.R5": "C12.R16"})
	c12RechargeParamVsAdmittedIds(c, r, "C12.R13")
	noLockAcrossNotification(c, r, "C12.R14")
	checkNotifyUriWriters(c, r, "C12.R7")

	// ---- R5 status constants
	checkProblemStatuses(c, r, "C12.R5")
}

func describeStatus(v ssa.Value) string {
	if n, ok := constInt(v); ok {
		return fmt.Sprintf("constant %d", n)
	}
	return "a non-constant status"
}

// checkValidateBeforeEffect implements C12.R3 on function f.
func checkValidateBeforeEffect(c *Ctx, r *Report, eff *effects, f *ssa.Function, rule string) {
	key := fnKey(f)
	effs := eff.effectInstrs(f)
	if len(effs) == 0 {
		r.viol(rule, key+"|effects", c.rel(f.Pos()), "function performs no effect at all (anchor moved?)")
		return
	}
	sess := paramByName(f, "chargingSessionId")
	if sess == nil {
		for _, p := range f.Params {
			if b, ok := p.Type().Underlying().(*types.Basic); ok && b.Kind() == types.String {
				sess = p
			}
		}
	}
	pdIdx := -1
	res := f.Signature.Results()
	for i := 0; i < res.Len(); i++ {
		if typeIs(res.At(i).Type(), modelsPath, "ProblemDetails") {
			pdIdx = i
		}
	}
	rets := returnsOf(f)

	type guardKind struct {
		name string
		dep  func(v ssa.Value) bool
	}
	kinds := []guardKind{
		{"session", func(v ssa.Value) bool {
			lk, ok := v.(*ssa.Lookup)
			if !ok {
				return false
			}
			if _, isMap := lk.X.Type().Underlying().(*types.Map); !isMap {
				return false
			}
			// map comes from subscriber state
			fromUe := false
			for d := range depSet(f, lk.X) {
				if fa, ok := d.(*ssa.FieldAddr); ok && typeIs(fa.X.Type(), ctxPath, "ChfUe") {
					fromUe = true
				}
			}
			if !fromUe {
				return false
			}
			return depSet(f, lk.Index)[sess]
		}},
		{"subscriber", func(v ssa.Value) bool {
			call, ok := v.(*ssa.Call)
			if !ok {
				return false
			}
			obj := calleeObj(&call.Call)
			return isFunc(obj, ctxPath, "CHFContext.ChfUeFindBySupi")
		}},
	}
	for _, gk := range kinds {
		found := false
		ok := false
		why := "no branch depending on the " + gk.name + " look-up separates a rejecting edge from the effects"
		var at ssa.Instruction
		for _, b := range f.Blocks {
			if len(b.Instrs) == 0 {
				continue
			}
			ifi, isIf := b.Instrs[len(b.Instrs)-1].(*ssa.If)
			if !isIf {
				continue
			}
			dep := false
			for d := range depSet(f, ifi.Cond) {
				if gk.dep(d) {
					dep = true
					break
				}
			}
			if !dep {
				continue
			}
			found = true
			for i := 0; i < 2; i++ {
				abs, pres := b.Succs[i], b.Succs[1-i]
				// absent edge: no effect reachable, every reachable return is a 4xx problem
				reach := threadedReach(b, abs)
				clean := true
				for _, e := range effs {
					if reach[e.Block()] {
						clean = false
					}
				}
				if !clean {
					continue
				}
				all4xx := true
				nret := 0
				for _, ri := range rets {
					if !reach[ri.At] {
						continue
					}
					nret++
					if pdIdx < 0 || pdIdx >= len(ri.Vals) {
						all4xx = false
						continue
					}
					st, okc := problemStatus(ri.Vals[pdIdx])
					if !okc || st < 400 || st > 499 {
						all4xx = false
					}
				}
				if nret == 0 || !all4xx {
					why = "the rejecting edge of the " + gk.name + " test does not return a 4xx problem"
					continue
				}
				// present edge dominates every effect
				dom := true
				for _, e := range effs {
					if !(edgeDominates(b, pres, e.Block()) || (e.Block() != b && b.Dominates(e.Block()) && !reach[e.Block()])) {
						dom = false
						why = fmt.Sprintf("effect at %s (%s) is reached without passing the %s test: a request naming an unknown %s still debits/refunds or changes records", posOf(c, e), shortInstr(e), gk.name, gk.name)
						at = e
						break
					}
				}
				if dom {
					ok = true
					at = ifi
				}
			}
			if ok {
				break
			}
		}
		if !found {
			why = "no branch in " + shortFn(f) + " depends on a look-up of subscriber state keyed by the " + gk.name
		}
		pos := c.rel(f.Pos())
		if at != nil {
			pos = posOf(c, at)
		}
		r.check(ok, rule, key+"|"+gk.name+"-guard", pos, fmt.Sprintf("absent edge returns 4xx without effects; present edge dominates all %d effect sites", len(effs)), why)
	}
}

func shortInstr(ins ssa.Instruction) string {
	if ci, ok := ins.(ssa.CallInstruction); ok {
		if obj := calleeObj(ci.Common()); obj != nil {
			return "call " + funcLocalName(obj)
		}
		return "call"
	}
	switch x := ins.(type) {
	case *ssa.MapUpdate:
		if n, ok := ueFieldOfValue(x.Map); ok {
			return "write ChfUe." + n + "[...]"
		}
		return "map update"
	case *ssa.Store:
		if fa, ok := x.Addr.(*ssa.FieldAddr); ok {
			return "write " + fieldName(fa)
		}
		return "store"
	}
	return fmt.Sprintf("%T", ins)
}

func checkRecharge(c *Ctx, r *Report) {
	f := c.fn("internal/sbi/processor", "Processor.NotifyRecharge")
	key := fnKey(f)
	send := c.fn("internal/sbi/processor", "Processor.SendChargingNotification")
	var sends []*ssa.Call
	var find *ssa.Call
	eachInstr(f, func(_ *ssa.BasicBlock, _ int, ins ssa.Instruction) {
		if call, ok := ins.(*ssa.Call); ok {
			if call.Call.StaticCallee() == send {
				sends = append(sends, call)
			}
			if isFunc(calleeObj(&call.Call), ctxPath, "CHFContext.ChfUeFindBySupi") {
				find = call
			}
		}
	})
	// inside SendChargingNotification: the request goes to the consumer at most once on every path
	// (a second post after a reported error doubles a notification that was delivered but
	// acknowledged in a way the generated client calls an error)
	{
		var posts []*ssa.Call
		eachInstr(send, func(_ *ssa.BasicBlock, _ int, ins ssa.Instruction) {
			if call, ok := ins.(*ssa.Call); ok {
				if obj := calleeObj(&call.Call); obj != nil && obj.Name() == "PostChargingNotification" && obj.Pkg() != nil && !strings.HasPrefix(obj.Pkg().Path(), modPath) {
					posts = append(posts, call)
				}
			}
		})
		skey := fnKey(send) + "|posts per path"
		switch {
		case len(posts) == 0:
			r.viol("C12.R4", skey, c.rel(send.Pos()), "SendChargingNotification does not post the notification (PostChargingNotification of the generated client not found)")
		default:
			bad := ""
			for i, a := range posts {
				if inCycle(a.Block()) {
					bad = "the notification is posted in a loop at " + posOf(c, a)
				}
				for j, b := range posts {
					if i == j {
						continue
					}
					if a.Block() == b.Block() && instrIndex(a) < instrIndex(b) || a.Block() != b.Block() && reachableFrom(a.Block(), nil, nil, nil)[b.Block()] {
						bad = "the notification posted at " + posOf(c, a) + " can be posted again at " + posOf(c, b) + " on the same path"
					}
				}
			}
			r.check(bad == "", "C12.R4", skey, posOf(c, posts[0]), "at most one post on every path", bad+": the consumer receives two re-authorisation notifications for one recharge")
		}
	}
	// also sends hidden in callees other than SendChargingNotification are not expected
	if len(sends) != 1 || find == nil {
		r.viol("C12.R4", key+"|one-notification", c.rel(f.Pos()), fmt.Sprintf("%d notification call sites (expected exactly 1) or no subscriber look-up", len(sends)))
	} else {
		s := sends[0]
		okOnce := !inCycle(s.Block())
		r.check(okOnce, "C12.R4", key+"|one-notification", posOf(c, s), "one call site, not in a loop", "notification sent in a loop")
		// found edge
		var okv, uev ssa.Value
		for _, ref := range *find.Referrers() {
			if ex, ok := ref.(*ssa.Extract); ok {
				if ex.Index == 1 {
					okv = ex
				} else {
					uev = ex
				}
			}
		}
		domOK, passOK := false, false
		for _, b := range f.Blocks {
			if len(b.Instrs) == 0 {
				continue
			}
			ifi, isIf := b.Instrs[len(b.Instrs)-1].(*ssa.If)
			if !isIf || ifi.Cond != okv {
				continue
			}
			found, notFound := b.Succs[0], b.Succs[1]
			if edgeDominates(b, found, s.Block()) {
				domOK = true
			}
			if everyPathFromPasses(found, []ssa.Instruction{s}) {
				passOK = true
			}
			if reachableFrom(notFound, nil, nil, nil)[s.Block()] {
				domOK = false
			}
		}
		r.check(domOK, "C12.R4", key+"|only-when-found", posOf(c, s), "the notification is dominated by the found edge", "a notification can be sent although the subscriber was not found")
		r.check(passOK, "C12.R4", key+"|always-when-found", posOf(c, s), "every path of the found edge sends the notification", "a path of the found edge returns without sending the notification")
		// uri argument = ue.NotifyUri of the found subscriber (possibly copied under the lock)
		uriOK := false
		for d := range depSet(f, s.Call.Args[1]) {
			if fa, ok := d.(*ssa.FieldAddr); ok && fieldName(fa) == "NotifyUri" && typeIs(fa.X.Type(), ctxPath, "ChfUe") {
				if fa.X == uev {
					uriOK = true
				}
			}
		}
		// the URI may be read under the subscriber lock inside a function literal whose result is passed on
		if !uriOK {
			for d := range depSet(f, s.Call.Args[1]) {
				call, ok := d.(*ssa.Call)
				if !ok {
					continue
				}
				callee := call.Call.StaticCallee()
				if callee == nil || callee.Parent() != f {
					continue
				}
				for _, ri := range returnsOf(callee) {
					for _, rv := range ri.Vals {
						for d2 := range depSet(callee, rv) {
							if fa, ok := d2.(*ssa.FieldAddr); ok && fieldName(fa) == "NotifyUri" && typeIs(fa.X.Type(), ctxPath, "ChfUe") {
								uriOK = true
							}
						}
					}
				}
			}
		}
		r.check(uriOK, "C12.R4", key+"|uri", posOf(c, s), "URI argument derives from the found subscriber's NotifyUri", "the notification is not sent to the NotifyUri the subscriber's consumer registered")
		// request names the rating group parameter, and no other rating group source
		rgParam := paramByName(f, "rg")
		deps := depSet(f, s.Call.Args[2])
		rgOK := rgParam != nil && deps[rgParam]
		nElems := 0
		for d := range deps {
			if a, ok := d.(*ssa.Alloc); ok && typeIs(a.Type(), modelsPath, "ReauthorizationDetails") {
				nElems++
			}
			if ap, ok := d.(*ssa.Call); ok {
				if b, ok := ap.Call.Value.(*ssa.Builtin); ok && b.Name() == "append" && inCycle(ap.Block()) {
					rgOK = false
				}
			}
		}
		r.check(rgOK, "C12.R4", key+"|rating-group", posOf(c, s), "the notification's ReauthorizationDetails carries the rating group parameter", "the notification does not name (exactly) the recharged rating group")
	}
	// RechargePut answers 204 after NotifyRecharge
	put := c.fn("internal/sbi", "Server.RechargePut")
	cv := ginContextParam(put)
	var ncall *ssa.Call
	eachInstr(put, func(_ *ssa.BasicBlock, _ int, ins ssa.Instruction) {
		if call, ok := ins.(*ssa.Call); ok && call.Call.StaticCallee() == f {
			ncall = call
		}
	})
	if ncall == nil || cv == nil {
		r.viol("C12.R4", fnKey(put)+"|notify", c.rel(put.Pos()), "RechargePut does not call NotifyRecharge")
		return
	}
	var good []ssa.Instruction
	bad := ""
	for _, rs := range respondersOf(put, cv) {
		if !instrDominates(ncall, rs.ins) {
			continue
		}
		if st, ok := constInt(rs.status); ok && st == 204 {
			good = append(good, rs.ins)
		} else {
			bad = "answers " + describeStatus(rs.status) + " after the notification at " + posOf(c, rs.ins)
		}
	}
	ok := bad == "" && len(good) > 0
	if ok {
		// every path from the call to return passes a 204 answer
		avoid := map[*ssa.BasicBlock]bool{}
		for _, g := range good {
			if g.Block() == ncall.Block() {
				avoid = nil
				break
			}
			avoid[g.Block()] = true
		}
		if avoid != nil {
			reach := reachableFrom(ncall.Block(), nil, nil, avoid)
			for b := range reach {
				if _, isRet := b.Instrs[len(b.Instrs)-1].(*ssa.Return); isRet {
					ok = false
					bad = "a path after the notification returns without answering 204"
				}
			}
		}
	}
	r.check(ok, "C12.R4", fnKey(put)+"|204", posOf(c, ncall), "every path after NotifyRecharge answers constant 204", bad)
}

// checkProblemStatuses: every ProblemDetails built in internal/sbi and the
// processor has a constant 4xx Status (5xx allowed only on the GetRawData
// error edge, which is outside the quantifier: a body that cannot be read).
func checkProblemStatuses(c *Ctx, r *Report, rule string) {
	n := 0
	for _, f := range c.ModFuncs {
		root := f
		for root.Parent() != nil {
			root = root.Parent()
		}
		if root.Pkg == nil {
			continue
		}
		pp := root.Pkg.Pkg.Path()
		if pp != procPath && pp != modPath+"/internal/sbi" {
			continue
		}
		idx := 0
		eachInstr(f, func(_ *ssa.BasicBlock, _ int, ins ssa.Instruction) {
			a, ok := ins.(*ssa.Alloc)
			if !ok || !typeIs(a.Type(), modelsPath, "ProblemDetails") {
				return
			}
			if _, isPtrPtr := a.Type().Underlying().(*types.Pointer).Elem().Underlying().(*types.Pointer); isPtrPtr {
				return
			}
			sts := storesToField(a, "Status")
			if len(sts) == 0 {
				// result variable or zero value: only flagged when it escapes with no Status at all
				if a.Comment == "complit" {
					idx++
					r.viol(rule, fmt.Sprintf("%s|problem#%d", fnKey(f), idx), posOf(c, a), "ProblemDetails built without a Status: the handler answers status 0")
				}
				return
			}
			idx++
			n++
			key := fmt.Sprintf("%s|problem#%d", fnKey(f), idx)
			for _, st := range sts {
				v, okc := constInt(st.Val)
				switch {
				case !okc:
					r.viol(rule, key, posOf(c, st), "non-constant problem status")
				case v >= 400 && v <= 499:
					r.proven(rule, key, posOf(c, st), fmt.Sprintf("status %d", v))
				case v >= 500 && onRawDataErrorEdge(st):
					r.proven(rule, key, posOf(c, st), fmt.Sprintf("status %d only on the GetRawData error edge (body unreadable: outside the quantifier)", v))
				default:
					r.viol(rule, key, posOf(c, st), fmt.Sprintf("problem status %d is not a 4xx", v))
				}
			}
		})
	}
	r.count("problem_literals", n)
}

// onRawDataErrorEdge: the instruction is dominated by the err != nil edge of a
// (*gin.Context).GetRawData call.
func onRawDataErrorEdge(ins ssa.Instruction) bool {
	f := ins.Parent()
	for _, b := range f.Blocks {
		if len(b.Instrs) == 0 {
			continue
		}
		ifi, ok := b.Instrs[len(b.Instrs)-1].(*ssa.If)
		if !ok {
			continue
		}
		bo, ok := ifi.Cond.(*ssa.BinOp)
		if !ok || bo.Op != token.NEQ {
			continue
		}
		ex, ok := bo.X.(*ssa.Extract)
		if !ok || ex.Index != 1 {
			continue
		}
		call, ok := ex.Tuple.(*ssa.Call)
		if !ok || !isFunc(calleeObj(&call.Call), ginPath, "Context.GetRawData") {
			continue
		}
		if edgeDominates(b, b.Succs[0], ins.Block()) {
			return true
		}
	}
	return false
}

// checkRequestIdentity (C12.R8): who may write the identity members of the request model.
func checkRequestIdentity(c *Ctx, r *Report) {
	n := 0
	for _, f := range c.ModFuncs {
		eachInstr(f, func(_ *ssa.BasicBlock, _ int, ins ssa.Instruction) {
			st, ok := ins.(*ssa.Store)
			if !ok {
				return
			}
			fa, ok := st.Addr.(*ssa.FieldAddr)
			if !ok || fieldName(fa) != "SubscriberIdentifier" {
				return
			}
			nt := namedOf(fa.X.Type())
			if nt == nil || nt.Obj().Pkg() == nil || !strings.Contains(nt.Obj().Pkg().Path(), "openapi/models") || !strings.HasSuffix(nt.Obj().Name(), "ChargingDataRequest") {
				return
			}
			n++
			r.viol("C12.R8", fnKey(rootOf(f))+"|assigns subscriberIdentifier", posOf(c, ins), "the request's subscriberIdentifier is assigned by "+shortFn(rootOf(f))+": the request is then processed for a subscriber it does not name - with an unknown subscriber and another subscriber's session reference it is answered 200/204 and changes that subscriber's records instead of being rejected")
		})
	}
	if n == 0 {
		r.proven("C12.R8", "request identity|no writer", "", "no function of the module assigns ChargingDataRequest.SubscriberIdentifier: the processor looks up the subscriber the request names")
	}
}

// resolveMem: a value read back from a member of a local, non-escaping struct (a reply /
// state object made in the function, copies of it included) or from a plain local is the
// value that was stored there, when a single definition reaches the read.
func resolveMem(v ssa.Value) ssa.Value {
	for i := 0; i < 8; i++ {
		ld, ok := v.(*ssa.UnOp)
		if !ok || ld.Op != token.MUL {
			return v
		}
		if sv, ok := forwardLoad(ld); ok && sv != v {
			v = sv
			continue
		}
		if sv := resolveLocalLoad(v); sv != v {
			v = sv
			continue
		}
		return v
	}
	return v
}
