#!/bin/bash
# analyse one patch in a scratch copy: tools/one.sh <patch> [props] [extra chfcheck args...]; keeps the copy at /tmp/one.<name> when KEEP=1
export GOFLAGS=-mod=mod GOPROXY=off GOSUMDB=off GOTOOLCHAIN=local GOWORK=off
patch=$(realpath "$1"); props=${2:-all}; shift; shift
wt=/tmp/one.$$; rm -rf $wt; mkdir -p $wt; rsync -a --exclude=.git /repo/ $wt/
(cd $wt && git apply "$patch") || { echo "patch does not apply"; rm -rf $wt; exit 2; }
${CHFBIN:-/verif/bin/chfcheck} -property "$props" -tier quick -evidence-dir none -repo $wt "$@" 2>&1 | sed "s#$wt/##g"
[ -n "${KEEP:-}" ] && echo "kept $wt" || rm -rf $wt
