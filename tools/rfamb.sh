#!/bin/bash
# run all checks against the ambitious refactoring corpus; prints one line per refactoring
cd "$(dirname "$0")/.."
export GOFLAGS=-mod=mod GOPROXY=off GOSUMDB=off GOTOOLCHAIN=local GOWORK=off
[ -z "$(git -C /repo status --porcelain)" ] || { echo "/repo not clean"; exit 2; }
trap 'git -C /repo checkout -- . ; git -C /repo clean -fdq' EXIT
for d in refactorings-ambitious/C*/; do
  for p in $d/r*.diff; do
    id=$(basename $d)/$(basename $p .diff)
    git -C /repo apply "$PWD/$p" 2>/dev/null || { echo "$id SKIPPED"; continue; }
    out=$(bin/chfcheck -property all -tier quick -evidence-dir none 2>&1); code=$?
    git -C /repo checkout -- . ; git -C /repo clean -fdq
    if [ $code -eq 0 ]; then echo "$id silent"; else rules=$(echo "$out" | grep -E "^  violation|CHECKER-BROKEN" | sed -E 's/^  violation (C[0-9]+\.[A-Za-z0-9]+)\|.*/\1/; s/CHECKER-BROKEN: property=(C[0-9]+).*/\1.BROKEN/' | sort -u | tr '\n' ' '); echo "$id ALARM $rules"; fi
  done
done
