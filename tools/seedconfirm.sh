#!/bin/bash
# Confirm one seeded change in a scratch copy of /repo (removed afterwards):
#   tools/seedconfirm.sh <dir with patch.diff and *_test.go> <package dir of the demo> <go test args...>
# patch applies, module builds, pinned suite passes with it, demo FAILS with it and PASSES without it.
export GOFLAGS=-mod=mod GOPROXY=off GOSUMDB=off GOTOOLCHAIN=local GOWORK=off
src=$(realpath "$1"); dest=$2; shift; shift
wt=$(mktemp -d ${TMPDIR:-/tmp}/seedconfirm.XXXXXX)
trap 'rm -rf "$wt"' EXIT
rsync -a --exclude=.git /repo/ "$wt/"; cd "$wt" || exit 2
ok=1
git apply "$src/patch.diff" || { echo "RESULT patch does not apply"; exit 1; }
go build ./... >$wt/.b 2>&1 && echo "build: ok" || { echo "build: FAILED"; head -5 $wt/.b; ok=0; }
go test -vet=off -count=1 ./... >$wt/.t 2>&1 && echo "suite with change: pass" || { echo "suite with change: FAIL"; grep -v '^ok\|no test files' $wt/.t | head; ok=0; }
rm -f $wt/.b $wt/.t
cp "$src"/*_test.go "$wt/$dest/"
if (cd "$wt/$dest" && eval go test -vet=off -count=1 "$@" .) >$wt/.d 2>&1; then echo "demo with change: PASS (expected FAIL)"; ok=0; else echo "demo with change: fails (as expected): $(grep -m2 -- '--- FAIL\|panic:\|DATA RACE\|^FAIL' $wt/.d | tr '\n' ' ' | cut -c1-200)"; fi
git apply -R "$src/patch.diff"
if (cd "$wt/$dest" && eval go test -vet=off -count=1 "$@" .) >$wt/.d 2>&1; then echo "demo without change: passes (as expected)"; else echo "demo without change: FAILS (expected pass)"; tail -5 $wt/.d; ok=0; fi
[ $ok = 1 ] && echo "CONFIRMED" || echo "NOT CONFIRMED"
