#!/bin/bash
# Run every check (quick tier, no evidence written) against each seeded change:
# git -C /repo apply <patch>; chfcheck; git -C /repo checkout -- . ; git -C /repo clean -fdq
# Output: seeded/MATRIX.txt  (one line per seed: property -> rules that fired)
set -u
here=$(cd "$(dirname "$0")/.." && pwd)
cd "$here"
[ -z "$(git -C /repo status --porcelain)" ] || { echo "/repo not clean"; exit 2; }
trap 'git -C /repo checkout -- . ; git -C /repo clean -fdq' EXIT
out=seeded/MATRIX.txt
: > $out
for d in seeded/C*/; do
  id=$(basename $d)
  git -C /repo apply "$here/$d/patch.diff" || { echo "$id: patch does not apply" >> $out; continue; }
  res=$(bin/chfcheck -property all -tier quick -evidence-dir none 2>&1)
  code=$?
  git -C /repo checkout -- . ; git -C /repo clean -fdq
  rules=$(echo "$res" | grep '^  violation' | grep -v '|vacuity' | sed 's/^  violation \(C[0-9]*\.[A-Z0-9a-z]*\)|.*/\1/' | sort | uniq -c | awk '{printf "%s(x%s) ", $2, $1}')
  props=$(echo "$res" | grep '^VIOLATION' | sed 's/VIOLATION property=\(C[0-9]*\).*/\1/' | tr '\n' ' ')
  broken=$(echo "$res" | grep -c 'CHECKER-BROKEN')
  echo "$id exit=$code violated=[$props] rules=[$rules] checker_broken=$broken" >> $out
done
cat $out
