#!/usr/bin/env python3
import json, sys
prop, commit, what = sys.argv[1], sys.argv[2], sys.argv[3]
p = '/verif/known_findings.json'
k = json.load(open(p))
k['fixed'].append({"property": prop, "commit": commit, "what": f"fixed: property={prop} {commit} {what}"})
json.dump(k, open(p, 'w'), indent=1)
