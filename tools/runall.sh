#!/bin/sh
# run every claimed check (quick, or $1) against /repo and print the summary lines
cd "$(dirname "$0")/.."
tier=${1:-quick}
ids=$(python3 -c "import json;print(','.join(c['property_id'] for c in json.load(open('MANIFEST.json'))['checks']))")
bin/chfcheck -property "$ids" -tier "$tier" | grep -E '^(property=|VIOLATION|KNOWN-FINDING|CHECKER-BROKEN|CONTROL|controls:)' | cut -c1-200
