#!/bin/bash
# Confirm a seeded change and run the checks against it.
#
#   tools/seedverify.sh <dir-with-patch.diff-and-demo> <package dir of the demo> <go test args for the demo> [props]
#
# 1. in a scratch worktree of /repo (removed at the end): the patch applies,
#    the module builds, the pinned test suite passes with it, the demo FAILS
#    with it and PASSES without it;
# 2. on /repo itself: git apply, run chfcheck (quick tier, no evidence written),
#    git checkout -- .  -- the tree is restored even if the run is interrupted.
set -u
export GOFLAGS=-mod=mod GOPROXY=off GOSUMDB=off GOTOOLCHAIN=local GOWORK=off
src=$(realpath "$1"); dest=$2; targs=$3; props=${4:-all}
here=$(cd "$(dirname "$0")/.." && pwd)
wt=$(mktemp -d /tmp/seedverify.XXXXXX)
rmdir "$wt"
git -C /repo worktree add --detach "$wt" HEAD >/dev/null 2>&1 || { echo "worktree failed"; exit 2; }
cleanup() { git -C /repo worktree remove --force "$wt" >/dev/null 2>&1; rm -rf "$wt"; git -C /repo worktree prune; }
trap cleanup EXIT
cd "$wt" || exit 2
ok=1
git apply "$src/patch.diff" || { echo "RESULT patch does not apply"; exit 1; }
if go build ./... >/tmp/seedverify.build.$$ 2>&1; then echo "build: ok"; else echo "build: FAILED"; cat /tmp/seedverify.build.$$; ok=0; fi
rm -f /tmp/seedverify.build.$$
if go test -vet=off -count=1 ./... >/tmp/seedverify.test.$$ 2>&1; then echo "suite with change: pass"; else echo "suite with change: FAIL"; grep -v '^ok\|no test files' /tmp/seedverify.test.$$ | head -30; ok=0; fi
rm -f /tmp/seedverify.test.$$
for f in "$src"/*_test.go "$src"/demo/*_test.go; do [ -f "$f" ] && cp "$f" "$wt/$dest/"; done
if (cd "$wt/$dest" && eval go test -vet=off -count=1 $targs) >/tmp/seedverify.demo.$$ 2>&1; then echo "demo with change: PASS (expected FAIL)"; ok=0; else echo "demo with change: fails (as expected)"; grep -m5 -- '--- FAIL\|panic:\|DATA RACE\|FAIL' /tmp/seedverify.demo.$$; fi
git apply -R "$src/patch.diff"
if (cd "$wt/$dest" && eval go test -vet=off -count=1 $targs) >/tmp/seedverify.demo.$$ 2>&1; then echo "demo without change: passes (as expected)"; else echo "demo without change: FAILS (expected pass)"; tail -20 /tmp/seedverify.demo.$$; ok=0; fi
rm -f /tmp/seedverify.demo.$$
cd "$here"
[ $ok = 1 ] && echo "CONFIRMED" || echo "NOT CONFIRMED"
# --- run the checks against /repo with the change applied
if [ -n "$(git -C /repo status --porcelain)" ]; then echo "/repo not clean; not running checks"; exit 2; fi
restore() { git -C /repo checkout -- . ; git -C /repo clean -fdq ; cleanup; }
trap restore EXIT
git -C /repo apply "$src/patch.diff" || exit 2
"$here/bin/chfcheck" -property "$props" -tier quick -evidence-dir none 2>&1 | grep -v 'violations=0' | sed 's/^/  check: /' | cut -c1-500 | head -80
echo "chfcheck exit=${PIPESTATUS[0]}"
git -C /repo checkout -- . ; git -C /repo clean -fdq
[ -z "$(git -C /repo status --porcelain)" ] && echo "/repo restored"
