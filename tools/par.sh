#!/bin/bash
# Parallel corpus runner: analyse many patched scratch copies of /repo at once (never touches /repo).
# usage: tools/par.sh <kind> [binary]     kind = seeds | rf | rfamb | <dir with */r*.diff>
# prints one line per patch:  <id> silent | ALARM <rules...>   (for seeds: the rules that fired)
# scratch copies live under $TMPDIR/chfpar.* and are removed as soon as each analysis is done.
set -u
export GOFLAGS=-mod=mod GOPROXY=off GOSUMDB=off GOTOOLCHAIN=local GOWORK=off
here=$(cd "$(dirname "$0")/.." && pwd)
kind=$1; bin=${2:-$here/bin/chfcheck}; jobs=${JOBS:-8}
case $kind in
  seeds) list=$(ls -d $here/seeded/C*/ | while read d; do echo "$(basename $d) $d/patch.diff"; done) ;;
  seed5) list=$(ls /tmp/seed5/C*-out/*/patch.diff | while read p; do d=$(dirname $p); echo "$(basename $(dirname $d) | sed 's/-out//')-5$(basename $d) $p"; done) ;;
  seed6) list=$(ls /tmp/seed6/C*-out/*/patch.diff | while read p; do d=$(dirname $p); echo "$(basename $(dirname $d) | sed 's/-out//')-6$(basename $d) $p"; done) ;;
  seed7) list=$(ls /tmp/seed7/C*-out/*/patch.diff | while read p; do d=$(dirname $p); echo "$(basename $(dirname $d) | sed 's/-out//')-7$(basename $d) $p"; done) ;;
  seed8) list=$(ls /tmp/seed8/C*-out/*/patch.diff | while read p; do d=$(dirname $p); echo "$(basename $(dirname $d) | sed 's/-out//')-8$(basename $d) $p"; done) ;;
  seed9) list=$(ls /tmp/seed9/C*-out/*/patch.diff | while read p; do d=$(dirname $p); echo "$(basename $(dirname $d) | sed 's/-out//')-9$(basename $d) $p"; done) ;;
  seed10) list=$(ls /tmp/seed10/C*-out/*/patch.diff | while read p; do d=$(dirname $p); echo "$(basename $(dirname $d) | sed 's/-out//')-10$(basename $d) $p"; done) ;;
  rf)    list=$(ls $here/refactorings/C*/r*.diff | while read p; do echo "$(basename $(dirname $p))/$(basename $p .diff) $p"; done) ;;
  rfamb) list=$(ls $here/refactorings-ambitious/C*/r*.diff | while read p; do echo "$(basename $(dirname $p))/$(basename $p .diff) $p"; done) ;;
  *)     list=$(ls $kind/*/r*.diff $kind/r*.diff 2>/dev/null | while read p; do echo "$(basename $(dirname $p))/$(basename $p .diff) $p"; done) ;;
esac
one() {
  id=$1; patch=$2
  wt=$(mktemp -d ${TMPDIR:-/tmp}/chfpar.XXXXXX)
  rsync -a --exclude=.git /repo/ "$wt/"
  if ! (cd "$wt" && git apply "$patch" 2>/dev/null); then echo "$id SKIPPED"; rm -rf "$wt"; return; fi
  out=$("$bin" -property all -tier quick -evidence-dir none -repo "$wt" 2>&1); code=$?
  rm -rf "$wt"
  [ -n "${DETAIL_DIR:-}" ] && { mkdir -p "$DETAIL_DIR"; echo "$out" > "$DETAIL_DIR/$(echo $id | tr / _).out"; }
  rules=$(echo "$out" | grep -E "^  violation|CHECKER-BROKEN" | sed -E 's/^  violation (C[0-9]+\.[A-Za-z0-9]+)\|vacuity.*/\1(vacuity)/; s/^  violation (C[0-9]+\.[A-Za-z0-9]+)\|.*/\1/; s/CHECKER-BROKEN: property=(C[0-9]+).*/\1.BROKEN/; s/^CHECKER-BROKEN.*/ALL.BROKEN/' | sort -u | tr '\n' ' ')
  if [ $code -eq 0 ]; then echo "$id silent"; else echo "$id ALARM exit=$code $rules"; fi
}
export -f one; export bin
echo "$list" | xargs -P $jobs -L 1 bash -c 'one "$0" "$1"' | sort -V
