#!/usr/bin/env python3
"""Generate positive-control mutants for chfcheck.

Each spec in mutants/specs/Cnn.py-style dict lists is (name, expected rule, file,
old, new[, more (file, old, new) edits]).  The generator produces
/verif/mutants/Cnn/<name>.patch (unified diff against /repo's working tree, -p1)
and /verif/mutants/Cnn/<name>.json (meta: property, expect, what).

Usage: tools/mkmutants.py [Cnn ...]    (default: all spec files)
A spec whose `old` text is not found exactly once is an error (the tree moved:
rewrite the control).
"""
import difflib, importlib.util, json, os, re, shutil, subprocess, sys, tempfile

VERIF = os.path.dirname(os.path.dirname(os.path.abspath(__file__)))
REPO = os.environ.get("CHF_REPO", "/repo")


def load_specs(prop):
    path = os.path.join(VERIF, "mutants", "specs", prop + ".py")
    spec = importlib.util.spec_from_file_location(prop, path)
    mod = importlib.util.module_from_spec(spec)
    spec.loader.exec_module(mod)
    return mod.MUTANTS


def gen(prop):
    outdir = os.path.join(VERIF, "mutants", prop)
    os.makedirs(outdir, exist_ok=True)
    for f in os.listdir(outdir):
        os.unlink(os.path.join(outdir, f))
    n = 0
    for m in load_specs(prop):
        name, expect, what, edits = m["name"], m["expect"], m.get("what", ""), m.get("edits", [])
        files = {}
        if m.get("patch_file"):
            # a stored patch (a seeded change kept under /verif/seeded) is the control as it is
            shutil.copy(os.path.join(VERIF, m["patch_file"]), os.path.join(outdir, name + ".patch"))
            meta = {"property": prop, "name": name, "expect": expect, "what": what}
            if m.get("expect_silent"):
                meta["expect_silent"] = True
            open(os.path.join(outdir, name + ".json"), "w").write(json.dumps(meta, indent=1) + "\n")
            n += 1
            continue
        if m.get("base"):
            # start from a refactored variant: the named diff (relative to /verif) is applied first
            base = os.path.join(VERIF, m["base"])
            rels = re.findall(r"^\+\+\+ b/(\S+)", open(base).read(), re.M)
            tmp = tempfile.mkdtemp(prefix="mkmutants.")
            try:
                for rel in rels:
                    os.makedirs(os.path.dirname(os.path.join(tmp, rel)), exist_ok=True)
                    shutil.copy(os.path.join(REPO, rel), os.path.join(tmp, rel))
                r = subprocess.run(["patch", "-p1", "-s", "-f", "--no-backup-if-mismatch", "-i", base], cwd=tmp, capture_output=True, text=True)
                if r.returncode != 0:
                    sys.exit(f"{prop}/{name}: base {m['base']} does not apply: {r.stdout}{r.stderr}")
                for rel in rels:
                    files[rel] = [open(os.path.join(REPO, rel)).read(), open(os.path.join(tmp, rel)).read()]
            finally:
                shutil.rmtree(tmp)
        for (rel, old, new) in edits:
            if rel not in files:
                p = os.path.join(REPO, rel)
                files[rel] = [open(p).read() if os.path.exists(p) else "", None]
                files[rel][1] = files[rel][0]
            cur = files[rel][1]
            if old == "":
                cur = cur + new
            else:
                cnt = cur.count(old)
                if cnt != 1:
                    sys.exit(f"{prop}/{name}: old text found {cnt} times in {rel}:\n{old}")
                cur = cur.replace(old, new)
            files[rel][1] = cur
        diff = ""
        for rel, (a, b) in files.items():
            fromf = "a/" + rel if a != "" or os.path.exists(os.path.join(REPO, rel)) else "/dev/null"
            d = difflib.unified_diff(a.splitlines(True), b.splitlines(True), fromf, "b/" + rel, n=3)
            diff += "".join(d)
        if not diff:
            sys.exit(f"{prop}/{name}: empty diff")
        open(os.path.join(outdir, name + ".patch"), "w").write(diff)
        meta = {"property": prop, "name": name, "expect": expect, "what": what}
        if m.get("expect_silent"):
            meta["expect_silent"] = True
        if m.get("expect_proven"):
            meta["expect_proven"] = m["expect_proven"]
        open(os.path.join(outdir, name + ".json"), "w").write(json.dumps(meta, indent=1) + "\n")
        n += 1
    print(f"{prop}: {n} mutants")


if __name__ == "__main__":
    props = sys.argv[1:]
    if not props:
        props = sorted(f[:-3] for f in os.listdir(os.path.join(VERIF, "mutants", "specs")) if f.endswith(".py"))
    for p in props:
        gen(p)
