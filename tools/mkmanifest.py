#!/usr/bin/env python3
"""Regenerate /verif/MANIFEST.json from the table below (kept next to the code so
that the manifest never drifts from what chfcheck registers)."""
import json, os, subprocess

VERIF = os.path.dirname(os.path.dirname(os.path.abspath(__file__)))

ENV = "GOFLAGS=-mod=mod GOPROXY=off GOSUMDB=off GOTOOLCHAIN=local GOWORK=off"

# id -> (category, technique, level text, level note, design ref)
CLAIMED = {
    "C13": ("proof",
            "who-may-call + dominance rules on go/ssa over every gin registration call in the module",
            "Structural proof, exhaustive over the module: every gin route registration call has a receiver tracing to a group protected by a dominating Use(auth middleware) / Group(prefix, auth) / protected parent; the middleware calls Check on every path; Check aborts with 401 on every path of the error edge; AuthorizationCheck returns nil only on the !OAuth2Required edge and otherwise VerifyOAuth's result; no other HTTP serving call exists. Holds for every service list because the rule never enumerates lists.",
            "Trusted: gin middleware/abort/group-inheritance semantics, oauth.VerifyOAuth, httpwrapper.NewHttp2Server, go/ssa and dominators of x/tools v0.29.0, the checker. Not decided: which scope string the closures verify against (shared loop variable under go 1.21).",
            "DESIGN.md §4 C13"),
}

CLAIMED["C17"] = ("other",
    "table agreement: all avp struct tags x merged dictionary XML (read from type-checked constants) x go-diameter's look-up/marshal rules; error-discipline and who-loads rules on go/ssa",
    "Decides the dictionary clause exhaustively (every avp tag of ccs_diameter/datatype resolves by go-diameter's own look-up rule; Go field representation identical to the dictionary datatype so no value of the AVP's range is truncated; (code, vendor) unique per application; command codes / handler names defined; both dictionaries loaded before the SBI server starts; every Marshal/Unmarshal error tested on its own result; code constants equal dictionary codes). Value fidelity 'received == sent' then rests on go-diameter's serialisation, which is trusted, not analysed.",
    "Trusted: go-diameter v3.0.2 Marshal/Unmarshal/FindAVP/Load semantics as read in its source; encoding/xml. Not decided: wire serialisation of each datatype; the values callers put in the fields.",
    "DESIGN.md §4 C17")

CLAIMED["C12"] = ("other",
    "dominance / must-pass-through rules on go/ssa: constants under success edges, validate-before-effect over a call-graph effect set, dependence slices for echo/URI/notification arguments",
    "Decides named structural clauses of the contract for every execution of the handlers: status constants 201/200/204 and Location on the success edge, Location tail is the session-map key, sequence-number echo and timestamp dominate success returns, the absent-subscriber and absent-session edges return 4xx without reaching any effect while the present edge dominates every effect (effect set = account/rating requests, record and reservation writes, file dump, CDR transfer, closed under callers), exactly one recharge notification to the registered URI naming the rating group, every problem status a 4xx constant. It does not execute requests, so 'no effect' is a must-not-reach statement over the CFG and call graph, not a state comparison.",
    "Trusted: gin writers send the status given; effect set of DESIGN Appendix A2 is complete (checked: every write to a ChfUe accounting cell is found by type). Not decided: body contents beyond echoed members; recharge for unknown subscriber (not demanded).",
    "DESIGN.md §4 C12")

CLAIMED["C09"] = ("other",
    "Eraser-style lockset analysis on go/ssa (must-locksets with interprocedural summaries and entry locksets over the CHA call graph), lock-order graph, release-on-all-exits, check-then-act rule",
    "Decides race-freedom and deadlock-freedom clauses for all interleavings without enumerating any: every shared mutable field of a mutex-owning struct (computed: post-publication write reachable from a request entry point; map/slice operations count) has a non-empty intersection of the must-locksets of all its request-reachable accesses, restricted to locks that can protect it (same owner struct or a singleton's lock - a per-subscriber lock does not protect global state); every lock taken in request code is released on every return; the acquired-while-held graph (through calls) is acyclic with no self edge; no unlocked Load...Store on the subscriber pool. Serial equivalence of effects across components is NOT decided.",
    "Assumes one request touches one subscriber context (lock classes, not instances); sync.Map, channels, sm.Client/StateMachine, idgenerator internally synchronised; objects reachable through ue.Cdr are not tracked field-sensitively.",
    "DESIGN.md §4 C09")

CLAIMED["C10"] = ("other",
    "lockset-based atomic-allocation rule, injectivity rule over the string-concatenation tree (go/ssa), who-may-write rule on the session map",
    "Decides three necessary conditions of uniqueness for all inputs and interleavings: the number in the reference is read inside the critical section that increments the shared counter (or is an atomic add / id-generator allocation); the reference is an injective function of that number (digits-only counter last or first, separated from free text by a constant whose adjacent character is not a digit); the session map is written only by create under the returned reference and by update/release under the request's own reference. Together with C12.R1 (Location tail is that key) these imply distinct references for live sessions; continued designation of the session is decided with C02.R1.",
    "Assumes strconv decimal rendering is digits only for non-negative numbers; counter does not wrap; uniqueness across restarts not decided.",
    "DESIGN.md §4 C10")

CLAIMED["C11"] = ("other",
    "nil-guard analysis over access paths of the request model, length-fact/dominance analysis of every index and slice site, call-graph reachability of abort calls, lockset-based no-wedge rule with a may-panic classifier (all on go/ssa)",
    "Decides, for every request body and path parameter at once: no dereference of an optional request member without a dominating non-nil test of the same access path; every index/slice site on the request path of the API, processor and conversion packages is in range (dominating length test, range loop, array bound, Split lemma, or the checked subscriber-pool prefix invariant); no panic/Fatal/os.Exit call site reachable from a route handler; every Lock in request code is followed by its deferred Unlock before any instruction that may panic (or the section cannot panic), so a recovered panic cannot leave a subscriber locked; every problem status is a 4xx constant. Promptness/timing of the follow-up request is not decided.",
    "Library internals (gin, openapi.Deserialize, go-diameter, mongo) are trusted not to panic; members of peer answers are outside the quantifier; BER codec and file encoder panics are the subject of C04/C16/C03.",
    "DESIGN.md §4 C11")

CLAIMED["C18"] = ("other",
    "acquire/release (must-pass-through) rule on go/ssa for every Dial* result; call-graph reachability of go statements",
    "Decides the structural cause of growth for histories of any length: every Diameter connection dialled in module code is closed on every path from the successful dial to a return (or returned / cached behind a dial-once test), and no go statement is reachable from a request handler - so a completed request leaves no connection and no module-started task behind. Counts at run time are not measured.",
    "Trusted: go-diameter ends its per-connection reader/watchdog goroutines when the connection is closed.",
    "DESIGN.md §4 C18")
CLAIMED["C19"] = ("other",
    "control-dependence slice for answer/request correlation; non-blocking-send rule on the handler closures (go/ssa Select/Send)",
    "Decides two necessary conditions, not the timing: (R1) the success return of each Diameter client function is control-dependent on a comparison of an identifier of the decoded answer with the request's - today both clients violate it and are recorded as known findings (no sound small repair: the messages lack a request-unique identifier); (R2) the answer handlers hand the message over with a non-blocking send (or a per-request buffered channel), so a late answer cannot block the handler, the mux and hence the subscriber's next request - repaired by a fix commit and proven.",
    "Fault sequences and delays are not enumerated; fairness of select and go-diameter's dispatch are trusted.",
    "DESIGN.md §4 C19")

CLAIMED["C20"] = ("other",
    "table agreement between `valid` struct tags and a nil-guard analysis of every configuration dereference in the module (go/types + go/ssa); constant-set agreement rules for service names and schemes; error-propagation rule on ReadConfig",
    "Decides soundness of validation relative to the runtime for the whole configuration space: every pointer-typed configuration member the module dereferences without a dominating nil test carries `required` (so a validated configuration cannot crash with a nil section), the service names accepted equal those routed and an unknown one is rejected, the scheme validator accepts exactly the served schemes, ReadConfig returns an error whenever Validate does and the configuration in use comes from ReadConfig. Exhaustive over all configuration struct types and all dereference sites.",
    "Trusted: govalidator rejects a nil pointer tagged required and visits nested structs. Not decided: value validators (host/port/url), non-nil-dereference start-up failures.",
    "DESIGN.md §4 C20")

CLAIMED["C07"] = ("other",
    "linear-form value numbering on go/ssa (polynomial forms of the balance written back per reaching definition), enum-set dataflow over the action/type switch, edge-relation facts for the clamp, definite-assignment and dominance rules",
    "Decides the server's arithmetic symbolically for all amounts and balances at once (no execution): for every reaching definition of the balance written to the database and every (Requested-Action, CC-Request-Type) value possible on its path, the polynomial written equals the statement's equation (balance + refund, balance - used, balance - grant, unchanged); the grant answered is the value subtracted and is min(request, balance) by edge relations; the final-unit indication is set exactly on request > balance; the ids are echoed on every path to Marshal; the unknown-account edge cannot reach the write-back; the write-back dominates the answer. The running balance over a sequence then follows by induction, which is not itself run.",
    "Assumes integer conversions are identities (amounts < 2^63) and stored balances are non-negative decimal strings; MongoDB and go-diameter trusted.",
    "DESIGN.md §4 C07")

CLAIMED["C08"] = ("other",
    "linear-form value numbering with store-to-load forwarding and memory merges on go/ssa, enum-set dataflow over the sub-type switch, edge-relation facts for divisors, sibling cross-check of the two unit-cost computations",
    "Decides for all request values and all stored tariffs at once: every integer division in the SUR handler has a divisor tested non-zero on a dominating edge and database type assertions are checked (no stored tariff crashes the server); every value stored into Price / AllowedUnits equals the statement's polynomial for the Request-Sub-Type values possible on its path (consumed x cost; quota div cost; allowed x cost, 0 only on the zero-cost edge); the server's and the CHF's unit-cost computations are the same polynomial over the tariff object placed in the answer; every path for a found account answers.",
    "Assumes no 32-bit overflow of the products and exact Pow10 for the exponents used; the floor-division lemma (q div d)*d <= q for d > 0 is used, not proved; decimal fractions are agreed upon by both sides but not judged.",
    "DESIGN.md §4 C08")

CLAIMED["C01"] = ("other",
    "linear-form value numbering over an abstract heap of the subscriber's map cells (reaching definitions per loop iteration), enum-set dataflow over the rating-type switch, edge-relation facts, who-may-write tables; the account server's equations are re-used from C07",
    "Decides the per-request transfer equations symbolically (all amounts at once, no execution): in reserve mode the reservation cell is written only as R0 - cost x used and + granted, where granted answers a DIRECT_DEBITING/UPDATE request for exactly -(R0 - cost x used) + cost x requested; in debit mode the price is the rating of the used volume, R - price is refunded on the edge price < R and price - R debited (TERMINATION) otherwise, and the reservation is cleared only after the request succeeded; the account server applies exactly those amounts and stores before it answers; nothing else writes the accounting cells or the balance. The conservation identity over a history follows by induction from these equations together with C09 (atomicity) and C17 (fidelity); that induction is an argument, not something this check runs.",
    "Assumes no integer overflow/truncation (products fit Unsigned32), peers reachable (error edges excluded, as the property's quantifier says), one rating group per loop iteration. Recharge is outside the CHF.",
    "DESIGN.md §4 C01")
CLAIMED["C06"] = ("other",
    "linear-form value numbering with edge-relation facts on the monetary quota's reaching definitions; min-form recognition; dominance rule for the final-unit indication; the account server's clamp re-used from C07",
    "Decides necessary conditions of 'no overdraft' for all balances, tariffs and request sizes: every definition of the Monetary-Quota offered for rating is 0, the reservation held, or a value tested <= the reservation (so AllowedUnits, and the grant = min(AllowedUnits, requested), never exceed what the reserved money buys, and is 0 when nothing is left); debit mode grants 0; the final-unit indication is set exactly on the edge where the account server signalled TERMINATE; the account server grants min(request, balance). The balance trajectory over histories is not simulated.",
    "Same numeric assumptions as C01/C07/C08; the floor-division lemma of C08.",
    "DESIGN.md §4 C06")

CLAIMED["C02"] = ("other",
    "dependence slices on go/ssa (record selection, field provenance), exactly-once call/append and loop-shape rules, constants under branch edges, interval analysis with a nibble transfer function for the BCD timestamp",
    "Decides structural clauses for all histories and inputs: the record update/release work on is selected only through look-ups keyed by the request's session reference (never an element of the subscriber-wide record list); UpdateCDR is called exactly once on every success path and appends the converted usage exactly once; the conversion loops append exactly one element per reported container in order; each listed CDR member takes its value from the corresponding request member and no other; cause-for-closing is 1 on the partial edge and 0 otherwise; every BCD octet of the opening timestamp has nibbles within 0..9 and the sign octet follows the offset's sign for all zone offsets. Content equality of decoded records and the split copy are not decided.",
    "Assumes time.Time accessor ranges, |zone offset| < 24 h, years 0..9999; append/range semantics of Go.",
    "DESIGN.md §4 C02")

CLAIMED["C14"] = ("other",
    "layout extraction by abstract interpretation of the encoders' write calls and a path walk of the decoder with a memory model (go/ssa), offsets as polynomial forms over the length fields; interval analysis for wrap-around",
    "Decides encoder/decoder agreement for every well-formed structure at once: for all eight combinations of the release-identifier tests every field the encoders write is read back into the same member from the same offset form, word width, bit position and with a mask of exactly its bits; the record loop starts where the header ends, advances by record header + CdrLength, takes exactly CdrLength payload octets and runs NumberOfCdrsInFile times; no 8/16-bit offset arithmetic in the decoder can wrap. Equality of structures for concrete values follows for well-formed inputs and is not separately executed.",
    "Trusted: encoding/binary, bytes.Buffer. Length fields are assumed consistent with the content (the statement's well-formedness); malformed files are C16-like behaviour and not decided here.",
    "DESIGN.md §4 C14")
CLAIMED["C15"] = ("other",
    "the same layout extraction compared with an independent table written from TS 32.297 clause 6.1.1/6.1.2 in the checker",
    "Decides conformance of the byte layout against an oracle that shares no code with the encoder: for every release-identifier combination each field's offset form, word width, bit shift and bit count, the presence and order of the extension octets, big-endian order of every multi-octet word and the header/record/payload shape of the file equal the specification table; the decoder's reads equal the same table, so a matching pair of wrong offsets is caught. A write the extractor cannot interpret fails the check as undecided.",
    "Trusted: encoding/binary.Write writes the fixed-size representation in the given order. The table's field names are those of the Go structures (the mapping of specification fields to structure members is part of the oracle).",
    "DESIGN.md §4 C15")

CLAIMED["C03"] = ("other",
    "interval analysis of narrowing conversions, path walk of dumpCdrFile with a memory model compared with the sizes derived from the extracted encoder layout, error-propagation (edge dominance) rule on the BER marshaller's results",
    "Decides for all histories and request sizes: no 8/16-bit narrowing conversion into a length field can truncate (a dominating guard bounds the operand, so a record over 65535 octets is rejected, not written); for every combination of the release-identifier tests the header length, initial file length, per-record growth, record length field and CDR count that dumpCdrFile computes equal the sizes of what the encoders write (derived from the extracted layout, not from constants in the checker); the marshaller's error is tested and its bytes are used only on the success edge; payload and length come from the same marshal result. That each payload is a complete BER record is C04's subject.",
    "Trusted: encoding/binary, bytes.Buffer; extractor limits as in C15. The split threshold's behaviour over histories is not decided.",
    "DESIGN.md §4 C03")

CLAIMED["C16"] = ("other",
    "relational bounds analysis on go/ssa (linear facts from dominating branch edges over polynomial forms, sub-slice lengths as terms, intervals, monotone loop counters, proved callee post-conditions), nil-guard analysis, progress rule, error-discipline and reflect-assignability rules",
    "Decides memory safety and termination of the decoder for every byte string and target type without running it: at each of the index/slice sites on the input bytes in the decode path 0 <= i < len and 0 <= lo <= hi <= len are proved; parseTagAndLength's post-conditions (1 <= offset <= len(input), length >= 0) are proved on the callee and used at call sites; optional field-parameter pointers are dereferenced only under a nil test; every scanning loop advances by >= 1 octet; every primitive parser's error is tested on its own result; reflect Set in the special-type cases is type-correct. Semantic rejection of wrongly-typed input is not decided.",
    "One trusted lemma: a shift-or accumulation of at most 7 octets into an int64 is non-negative (premise proved). Result atoms of a call are assumed to be used only after its error was tested (R4 checks that). Panics inside package reflect for exotic target types are out of scope.",
    "DESIGN.md §4 C16")

CLAIMED["C04"] = ("other",
    "schema walk over every named type of cdr/cdrType mirroring the reflection walk with case lists extracted from makeField's SSA (exhaustive table rule); relational analysis of reflect index arguments; interval analysis of the BIT STRING initial octet; constants under branch edges; error-propagation rule",
    "Decides the shape part of well-formedness and panic freedom for every schema type and value: every one of the ~195 schema types is encodable by the walk (non-empty structs, optional members nillable, integer CHOICE selector, leaf kinds in the extracted case list, strings reached through a context tag); every reflect Field/Index argument is in range on its path (so an out-of-range CHOICE selector is an error, not a panic); the BIT STRING unused-bit octet is within 0..7 for all bit lengths; BOOLEAN is 0xFF/0x00; nested errors are returned, never swallowed. The value-level clauses (minimal INTEGER octets, identifier/length arithmetic, children summing to the parent, byte equality with a reference encoder) are numerical results no sound structural rule decides; they are not claimed.",
    "Trusted: package reflect; the ber tag language is mirrored from parseFieldParameters. Buffer arithmetic of the content encoders is not analysed.",
    "DESIGN.md §4 C04")
CLAIMED["C05"] = ("other",
    "sibling cross-check of the two codec halves on facts extracted from their SSA (kind case lists, special types, conventions, element parameters) and an exhaustive decodability walk of the schema; error and reflect-assignability rules",
    "Decides structural preconditions of the round-trip law, not the law on values: encoder and decoder agree on kinds, special types, struct conventions, the tag parser and on processing list elements with the list's tag cleared; every schema type is decodable by the decoder's matching rule (members and alternatives tagged, tags unique, leaf kinds handled) - four untagged schema members are recorded as known findings (values using them encode but do not decode); unsupported constructs return errors in both halves; the decoder's reflect Set calls are type-correct. Value equality (e.g. negative integers, embedded-CHOICE offsets) is explicitly undecided.",
    "Known findings C05.R2 x4 (untagged members/alternative). Value-level round trip not claimed.",
    "DESIGN.md §4 C05")

# id -> reason, for properties not (yet) claimed
NOT_APPLICABLE = {
}

PENDING_REASON = "check not registered yet in this commit: the rules designed in DESIGN.md §4 for this property are still being implemented; claimed as soon as the rule set decides the property on the current tree"


def main():
    props = [json.loads(l)["id"] for l in open(os.path.join(VERIF, "properties.jsonl"))]
    fixes = []
    try:
        out = subprocess.run(["git", "-C", "/repo", "log", "--format=%H %s"], capture_output=True, text=True).stdout
        for line in out.splitlines():
            h, _, subj = line.partition(" ")
            if subj.startswith("fix:"):
                fixes.append(h)
    except Exception:
        pass
    checks = []
    na = []
    for pid in props:
        if pid in CLAIMED:
            cat, tech, text, note, ref = CLAIMED[pid]
            checks.append({
                "property_id": pid,
                "quick_cmd": f"bin/chfcheck -property {pid} -tier quick",
                "thorough_cmd": f"bin/chfcheck -property {pid} -tier thorough",
                "evidence_file": f"evidence/{pid}.json",
                "replay_cmd_template": f"bin/chfcheck -property {pid} -explain {{path}}",
                "engine": "chfcheck",
                "level_claimed": {"category": cat, "text": text, "design_ref": ref},
                "level_note": note,
                "technique": "static analysis: " + tech,
            })
        else:
            na.append({"property_id": pid, "reason": NOT_APPLICABLE.get(pid, PENDING_REASON)})
    m = {
        "version": 1,
        "setup_cmd": f"mkdir -p bin evidence && cd chfcheck && {ENV} go build -o ../bin/chfcheck .",
        "hooks": {
            "guard": "verif",
            "enable": "none needed: static analysis reads /repo's sources as they are; no instrumentation exists, the tag 'verif' is unused",
            "baseline_off_cmd": "cd /repo && go test -vet=off -count=1 ./...",
            "source_commits": list(reversed(fixes)),
            "add_only": True,
        },
        "engines": [{
            "name": "chfcheck",
            "path": "chfcheck/",
            "serves_properties": sorted(CLAIMED),
            "kind_free_text": "repository-specific static analyser (go/packages + go/types + go/ssa + CHA call graph of golang.org/x/tools v0.29.0): dominance/ordering, lockset, nil-guard, range and table-agreement rules; thorough tier re-runs itself on scratch copies carrying the control patches of mutants/",
        }],
        "checks": checks,
        "not_applicable": na,
        "notes": "All checks are static: nothing in /repo is executed. exit 0 = every obligation PROVEN/REVIEWED/KNOWN-FINDING; exit 1 + VIOLATION line = an obligation failed; exit 2 = checker could not decide (load/type error, unresolved anchor, control misbehaved). Known findings: known_findings.json; reviewed sites: reviewed.json.",
    }
    # an empty list is kept: every property is claimed (the clauses that are not decided are listed per check)
    open(os.path.join(VERIF, "MANIFEST.json"), "w").write(json.dumps(m, indent=1) + "\n")
    print("MANIFEST.json:", len(checks), "checks,", len(na), "not_applicable")


if __name__ == "__main__":
    main()
