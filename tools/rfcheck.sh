#!/bin/bash
# Run the checks against behaviour-preserving refactorings: every one must leave
# all checks silent.  usage: tools/rfcheck.sh <dir with r*.diff> [props]
set -u
export GOFLAGS=-mod=mod GOPROXY=off GOSUMDB=off GOTOOLCHAIN=local GOWORK=off
src=$(realpath "$1"); props=${2:-all}
here=$(cd "$(dirname "$0")/.." && pwd)
[ -z "$(git -C /repo status --porcelain)" ] || { echo "/repo not clean"; exit 2; }
trap 'git -C /repo checkout -- . ; git -C /repo clean -fdq' EXIT
for p in "$src"/r*.diff; do
  [ -f "$p" ] || continue
  n=$(basename "$p")
  if [ -n "${RF_FAST:-}" ]; then
    git -C /repo apply "$p" 2>/dev/null || { echo "$n: SKIPPED (does-not-apply)"; continue; }
    out=$("$here/bin/chfcheck" -property "$props" -tier quick -evidence-dir none 2>&1); code=$?
    git -C /repo checkout -- . ; git -C /repo clean -fdq
    if [ $code -eq 0 ]; then echo "$n: silent (ok)"; else echo "$n: ALARM exit=$code"; echo "$out" | grep -E "^  violation|CHECKER-BROKEN|^note" | cut -c1-330 | head -12; fi
    continue
  fi
  wt=$(mktemp -d /tmp/rfcheck.XXXXXX); rmdir "$wt"
  git -C /repo worktree add --detach "$wt" HEAD >/dev/null 2>&1
  st="ok"
  (cd "$wt" && git apply "$p" 2>/dev/null) || st="does-not-apply"
  if [ "$st" = ok ]; then
    (cd "$wt" && go build ./... >/dev/null 2>&1) || st="build-fails"
  fi
  if [ "$st" = ok ]; then
    (cd "$wt" && go test -vet=off -count=1 ./... >/dev/null 2>&1) || st="tests-fail"
  fi
  git -C /repo worktree remove --force "$wt" >/dev/null 2>&1; rm -rf "$wt"; git -C /repo worktree prune
  if [ "$st" != ok ]; then echo "$n: SKIPPED ($st)"; continue; fi
  git -C /repo apply "$p" || { echo "$n: apply on /repo failed"; continue; }
  out=$("$here/bin/chfcheck" -property "$props" -tier quick -evidence-dir none 2>&1); code=$?
  git -C /repo checkout -- . ; git -C /repo clean -fdq
  if [ $code -eq 0 ]; then echo "$n: silent (ok)"; else echo "$n: ALARM exit=$code"; echo "$out" | grep -E "^  violation|CHECKER-BROKEN" | cut -c1-330 | head -12; fi
done
